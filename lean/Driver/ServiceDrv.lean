/- Driver for the service engine (ops whose name starts with `s`).  The scripts it reads are the
*resolved* ops printed by the harness (`!OP …`): records are abstract `Rec`s
(`id:seq:udp4:udp6:mapped:size:passesFilter:sig`), requests are referred to by their number. -/
import Driver.Common
import Discv5Model.Model.Service
import Discv5Model.Model.Connectivity
import Discv5Model.Model.Lookup
namespace Discv5.Driver
namespace SvcD
open Discv5.KB Discv5.Svc

structure SvcInst where
  name : String
  svc : Svc
  /-- the connectivity state (`Model/Connectivity.lean`); the `Instant` clock stands still in a case -/
  conn : Conn.Conn := { duration := none }
  /-- the running lookup's state machine (`Model/Lookup.lean`) -/
  lq : Option Lookup.Q := none
  /-- the application is not reading its event stream: events are not part of the replies -/
  evPaused : Bool := false
  /-- every request ever emitted (requests are looked up here once they are no longer active) -/
  hist : List ActiveReq := []

structure ServiceSt where
  insts : List SvcInst := []
  bans : List String := []

def sKey (s : String) : Nat := beNat (hex! s)
def sKeyHex (k : Nat) : String := toHex (beBytes 32 k)
def id8 (k : Nat) : String := ((sKeyHex k).take 8).toString

def bytesOf (s : String) : Bytes := if s == "-" then [] else hex! s

def optNat (s : String) : Option Nat := if s == "-" then none else s.toNat?

def parseRec (s : String) : Option Rec :=
  match fields s with
  | [id, seq, u4, u6, m, size, pf, sig] =>
    some { id := sKey id, seq := nat! seq, udp4 := optNat u4,
           udp6 := if u6 == "-" then none else some (beNat (hex! u6)), udp6Mapped := m == "1",
           size := nat! size, passesFilter := pf == "1", sig := nat! sig }
  | _ => none

def parseRecs (s : String) : List Rec :=
  if s == "-" then [] else (s.splitOn ",").filterMap parseRec

def parseAddr (s : String) : Addr :=
  match s.splitOn "~" with
  | [f, n] => if f == "6" then { v6 := true, sock := beNat (hex! n) } else { v6 := false, sock := nat! n }
  | _ => { v6 := false, sock := 0 }

/-- IPv4 sockets in decimal, IPv6 sockets as 36 hex digits (`ip * 65536 + port`). -/
def showAddr (a : Addr) : String :=
  if a.v6 then s!"6~{toHex (beBytes 18 a.sock)}" else s!"4~{a.sock}"

def showIp (a : Addr) : String :=
  if a.v6 then s!"6~{toHex (beBytes 16 a.ip)}" else s!"4~{a.ip}"

def parseDists (s : String) (sep : String) : List Nat :=
  if s == "-" then [] else (s.splitOn sep).map nat!

def showDists (ds : List Nat) : String :=
  if ds.isEmpty then "-" else ".".intercalate (ds.map toString)

def recShort (r : Rec) : String := s!"{id8 r.id}/{r.seq}"

def showRecs (rs : List Rec) : String :=
  if rs.isEmpty then "-" else ",".intercalate (rs.map recShort)

def showReqBody : ReqBody → String
  | .ping s => s!"ping:{s}"
  | .findNode ds => s!"findnode:{showDists ds}"
  | .talk p q => s!"talk:{hexOrDash p}:{hexOrDash q}"

def showRespBody : RespBody → String
  | .pong s a => s!"pong:{s}:{showAddr a}"
  | .nodes t rs => s!"nodes:{t}:{showRecs rs}:{(rs.map (·.size)).sum}"
  | .talk p => s!"talk:{hexOrDash p}"

def showEv : Ev → String
  | .nodeInserted id r => s!"ev:inserted:{id8 id}:{match r with | some x => id8 x | none => "-"}"
  | .discovered r => s!"ev:discovered:{recShort r}"
  | .sessionEstablished r a => s!"ev:established:{recShort r}@{showAddr a}"
  | .talkRequest rid peer _ p b => s!"ev:talkreq:{hexOrDash rid}:{id8 peer}:{hexOrDash p}:{hexOrDash b}"
  | .socketUpdated a => s!"ev:socket:{showAddr a}"
  | .unverifiableEnr id => s!"ev:unverifiable:{id8 id}"

def showCb : CbRes → String
  | .nodes rs => s!"nodes:{showRecs rs}"
  | .pong s a => s!"pong:{s}:{showAddr a}"
  | .talk p => s!"talk:{hexOrDash p}"
  | .err => "err"

def insertStr (x : String) : List String → List String
  | [] => [x]
  | y :: ys => if x < y then x :: y :: ys else if x == y then y :: ys else y :: insertStr x ys

def sortDedupStr (l : List String) : List String := l.foldr insertStr []

/-- Canonical reply items: handler-channel messages in order, the empty TALKRESPs of request
objects the (service engine's) application drops at once, events, new bans (sorted), callbacks. -/
def showOuts (outs : List Out) : List String × List String :=
  let chan := outs.filterMap fun
    | .request id peer a b => some s!"req:r{id}:{id8 peer}@{showAddr a}:{showReqBody b}"
    | .response peer a rid b => some s!"resp:{id8 peer}@{showAddr a}:{hexOrDash rid}:{showRespBody b}"
    | .whoAreYou peer a k => some s!"way:{id8 peer}@{showAddr a}:{match k with | some r => recShort r | none => "-"}"
    | _ => none
  let talkDrops := outs.filterMap fun
    | .event (.talkRequest rid peer a _ _) =>
      match ({ rid := rid, peer := peer, addr := a } : TalkReq).drop true with
      | [.response p a' r b] => some s!"resp:{id8 p}@{showAddr a'}:{hexOrDash r}:{showRespBody b}"
      | _ => none
    | _ => none
  let evs := outs.filterMap fun
    | .event e => some (showEv e)
    | _ => none
  let bans := sortDedupStr (outs.flatMap fun
    | .ban peer a => [s!"ban:{id8 peer}", s!"banip:{showIp a}"]
    | _ => [])
  let cbs := outs.filterMap fun
    | .callback id r => some s!"cb:r{id}:{showCb r}"
    | _ => none
  (chan ++ talkDrops ++ evs ++ bans ++ cbs, bans)

def showNodeShort (full : Bool) (n : Node Rec) : String :=
  s!"{if full then sKeyHex n.key else id8 n.key}/{if n.st.conn then "c" else "d"}/{if n.st.incoming then "i" else "o"}/{n.value.seq}"

def digest (full : Bool) (t : Table Rec) : String :=
  let parts := (List.range numBuckets).filterMap fun i =>
    let b := t.bucket i
    if b.nodes.isEmpty && b.pending.isNone then none else
    let p := match b.pending with
      | some p => showNodeShort full p.node
      | none => "-"
    some s!"{i}:[{",".intercalate (b.nodes.map (showNodeShort full))}]p={p}"
  if parts.isEmpty then "empty" else ";".intercalate parts

def getInst (st : ServiceSt) (x : String) : Option SvcInst := st.insts.find? (·.name == x)

def setInst (st : ServiceSt) (i : SvcInst) : ServiceSt :=
  { st with insts := (st.insts.filter (·.name != i.name)) ++ [i] }

def histOf (outs : List Out) (s : Svc) : List ActiveReq :=
  outs.filterMap fun
    | .request id _ _ _ => s.active.find? (fun a => a.id == id)
    | _ => none

def oracleOf (s : Svc) (sfx : List String) : Oracle :=
  sfx.foldl (fun (o : Oracle) tok =>
    if tok.startsWith "local=" then
      match parseRec (tok.drop 6).toString with
      | some r =>
        let a : Addr := if r.udp4 != s.localRec.udp4 then { v6 := false, sock := r.udp4.getD 0 }
                        else { v6 := true, sock := r.udp6.getD 0 }
        { o with newLocal := some (r, a) }
      | none => o
    else if tok == "rm=1" then { o with requireMore := true }
    else o) {}

def showResult (found : Option (List Rec)) : Option String :=
  found.map fun rs => s!"qres:{rs.length}:{if rs.isEmpty then "-" else ",".intercalate (rs.map (fun r => id8 r.id))}"

/-- Renders the reply of a step of instance `i`: `steps` are the outputs of the service steps, each
with the state it led to (the requests it emitted are looked up there), `res` is the result of a
lookup that ended. -/
def finishOn (st : ServiceSt) (i : SvcInst) (sEnd : Svc) (conn : Conn.Conn) (lq : Option Lookup.Q)
    (steps : List (List Out × Svc)) (res : Option (List Rec)) (extra : Option String) : ServiceSt × String :=
  let outs := steps.flatMap (·.1)
  let (items, bans) := showOuts outs
  let items := if i.evPaused then items.filter (fun s => !s.startsWith "ev:") else items
  let items := match extra with | some e => e :: items | none => items
  let items := match showResult res with | some r => items ++ [r] | none => items
  let i' := { i with svc := sEnd, conn := conn, lq := lq,
                     hist := i.hist ++ steps.flatMap (fun p => histOf p.1 p.2) }
  let st' := { setInst st i' with bans := sortDedupStr (st.bans ++ bans) }
  (st', s!"{if items.isEmpty then "-" else " ".intercalate items} | T={digest false sEnd.table}")

/-- The `t=` token of a resolved op: the tokio clock (ms) when the op was handed to the service. -/
def tokOf (sfx : List String) : Nat :=
  match sfx.find? (·.startsWith "t=") with
  | some t => nat! (t.drop 2).toString
  | none => 0

/-- Runs service inputs on instance `x`: each one is a step of the service with its connectivity
state (`Conn.KSvc.step`) that may tell the running lookup something (`Lookup.effectOf`); afterwards
the service loop serves the lookup (`Lookup.pump`): requests to the peers it selects, its result
when it is finished.  This is `Lookup.LSvc.step` with the connectivity state carried along. -/
def runInputs (st : ServiceSt) (x : String) (inps : List Svc.Input) (sfx : List String)
    (extra : Option String) : ServiceSt × String :=
  match getInst st x with
  | none => (st, "noop")
  | some i =>
    let o := oracleOf i.svc sfx
    let tok := tokOf sfx
    let init : Conn.KSvc × Option Lookup.Q × List (List Out × Svc) := ({ svc := i.svc, conn := i.conn }, i.lq, [])
    let (k, q, steps) := inps.foldl (fun acc inp =>
      let (k, q, steps) := acc
      let eff := Lookup.effectOf k.svc inp
      let (k1, o1) := k.step tok 0 (.svc o inp)
      let q1 := match q, eff with
        | some qq, some e => some (Lookup.applyEffect {} qq e)
        | q, _ => q
      (k1, q1, steps ++ [(o1, k1.svc)])) init
    let (l2, o2, res) := Lookup.pump 0 { svc := k.svc, q := q }
    finishOn st i l2.svc k.conn l2.q (steps ++ [(o2, l2.svc)]) res extra

/-- The earliest deadline of a connectivity timer that is due by `tEnd`. -/
def nextDue (c : Conn.Conn) (tEnd : Nat) : Option Nat :=
  let ds := ([c.wait4, c.wait6].filterMap id).filter (· ≤ tEnd)
  ds.foldl (fun (m : Option Nat) d => match m with | none => some d | some e => some (min e d)) none

/-- Idle until `tEnd`: the connectivity timers that run out fire in the order of their deadlines. -/
def idleK (k : Conn.KSvc) (tEnd sz sg : Nat) : Conn.KSvc × List Out :=
  match nextDue k.conn tEnd with
  | none => (k, [])
  | some d1 =>
    let (k1, o1) := k.step d1 0 (.timer sz sg)
    match nextDue k1.conn tEnd with
    | none => (k1, o1)
    | some d2 =>
      let (k2, o2) := k1.step d2 0 (.timer sz sg)
      (k2, o1 ++ o2)

def parseMode (s : String) : IpMode := if s == "ip6" then .ip6 else if s == "dual" then .dual else .ip4

def parseReqBody : List String → Option ReqBody
  | ["ping", s] => some (.ping (nat! s))
  | ["findnode", ds] => some (.findNode (parseDists ds ","))
  | ["talk", p, q] => some (.talk (bytesOf p) (bytesOf q))
  | _ => none

def reqNo (s : String) : Nat := nat! (s.drop 1).toString

def serviceStep (st : ServiceSt) (toks : List String) : ServiceSt × String :=
  match toks with
  | ["snop"] => (st, "noop")
  | "snew" :: x :: rec :: mode :: maxn :: maxin :: enrupd :: rest =>
    match parseRec rec with
    | none => (st, "noop")
    | some r =>
      let cfg : Svc.Cfg := { ipMode := parseMode mode, maxNodesResponse := nat! maxn, enrUpdate := enrupd == "1",
                             kb := kbCfg (nat! maxin) 60000 }
      -- `an=MS|-`: the listen duration of the built configuration; scripts written before the
      -- connectivity state was modelled do not say: the default of `ConfigBuilder`
      let an : Option Nat := match rest.find? (·.startsWith "an=") with
        | some t => optNat (t.drop 3).toString
        | none => Conn.autoNatOf (enrupd == "1") (some (Consts.AUTO_NAT_LISTEN_DEFAULT_SECS * 1000))
      (setInst st { name := x, svc := Svc.init cfg r, conn := Conn.Conn.new an 0 }, "ok")
  | ["spermit", _] => (st, "ok")   -- the permit list concerns the packet filter only
  | ["sevresub", _] => (st, "ok")  -- a new event stream: what is observed does not change
  | ["ssleep", _] => (st, "ok")
  | ["ssetsock", x, loc] =>
    -- `Discv5::update_local_enr_socket`: the application writes the local record itself
    match getInst st x, parseRec (loc.drop 6).toString with
    | some i, some r => (setInst st { i with svc := { i.svc with localRec := r } }, "ok")
    | _, _ => (st, "noop")
  | ["sbanfill", _] => (st, "ok")  -- entries already on the ban lists are not news
  | "sidle" :: x :: sfx =>
    match getInst st x with
    | none => (st, "noop")
    | some i =>
      let newRec := (sfx.find? (·.startsWith "local=")).bind (fun t => parseRec (t.drop 6).toString)
      let (sz, sg) := match newRec with
        | some r => (r.size, r.sig)
        | none => (i.svc.localRec.size, i.svc.localRec.sig)
      let (k1, o1) := idleK { svc := i.svc, conn := i.conn } (tokOf sfx) sz sg
      finishOn st i k1.svc k1.conn i.lq [(o1, k1.svc)] none none
  | ["sway", x, peer, addr] => runInputs st x [.whoAreYou (sKey peer) (parseAddr addr)] [] none
  | ["sevpause", x] =>
    match getInst st x with
    | some i => (setInst st { i with evPaused := true }, "ok")
    | none => (st, "noop")
  | ["sevresume", x] =>
    match getInst st x with
    | some i => (setInst st { i with evPaused := false }, "ok")
    | none => (st, "noop")
  | ["sadd", x, rec] =>
    match parseRec rec, getInst st x with
    | some r, some i =>
      let res := (i.svc.addEnr r).2
      runInputs st x [.addEnr r] [] (some (if res == .ok then "ok" else "err:add"))
    | _, _ => (st, "noop")
  | "sest" :: x :: rec :: addr :: dir :: sfx =>
    match parseRec rec with
    | some r => runInputs st x [.established r (parseAddr addr) (dir == "i")] sfx none
    | none => (st, "noop")
  | ["srm", x, id] =>
    match getInst st x with
    | some i =>
      let res := (i.svc.removeNode (sKey id)).2
      runInputs st x [.removeNode (sKey id)] [] (some s!"removed={res}")
    | none => (st, "noop")
  | ["sunverifiable", x, id] => runInputs st x [.unverifiable (sKey id)] [] none
  | "sreq" :: x :: peer :: addr :: rid :: body =>
    match parseReqBody body with
    | some b => runInputs st x [.request (sKey peer) (parseAddr addr) (bytesOf rid) b] [] none
    | none => (st, "noop")
  | "sresp" :: x :: rk :: peer :: addr :: "nodes" :: total :: recs :: sfx =>
    runInputs st x [.response (sKey peer) (parseAddr addr) (reqNo rk) (.nodes (nat! total) (parseRecs recs))] sfx none
  | "sresp" :: x :: rk :: peer :: addr :: "pong" :: seq :: obs :: sfx =>
    runInputs st x [.response (sKey peer) (parseAddr addr) (reqNo rk) (.pong (nat! seq) (parseAddr obs))] sfx none
  | "sresp" :: x :: rk :: peer :: addr :: "talk" :: payload :: sfx =>
    runInputs st x [.response (sKey peer) (parseAddr addr) (reqNo rk) (.talk (bytesOf payload))] sfx none
  | "sfail" :: x :: rk :: sfx => runInputs st x [.requestFailed (reqNo rk)] sfx none
  | "squery" :: x :: target :: sfx =>
    -- `k=N`: a predicate lookup (predicate: always true) for N nodes
    match getInst st x with
    | none => (st, "noop")
    | some i =>
      let n : Option Nat := (sfx.find? (·.startsWith "k=")).map (fun t => nat! (t.drop 2).toString)
      let (l1, o1, res) := ({ svc := i.svc, q := i.lq } : Lookup.LSvc).step {} 0 (.lookup (sKey target) n)
      finishOn st i l1.svc i.conn l1.q [(o1, l1.svc)] res none
  | ["sapi", x, "ping", rec] =>
    match parseRec rec with
    | some r => runInputs st x [.apiPing r] [] none
    | none => (st, "noop")
  | ["sapi", x, "findnode", rec, ds] =>
    match parseRec rec with
    | some r => runInputs st x [.apiFindNode r (parseDists ds ",")] [] none
    | none => (st, "noop")
  | ["sapi", x, "talk", rec, p, q] =>
    match parseRec rec with
    | some r => runInputs st x [.apiTalk r (bytesOf p) (bytesOf q)] [] none
    | none => (st, "noop")
  | "shonest" :: x :: rk :: y :: from_ :: rid :: sfx =>
    match getInst st x, getInst st y with
    | some ix, some iy =>
      match ix.hist.find? (fun a => a.id == reqNo rk) with
      | some req =>
        match req.body with
        | .findNode ds =>
          -- the honest responder serves the request …
          let (sy, oy) := iy.svc.step {} (.request ix.svc.localRec.id (parseAddr from_) (bytesOf rid) (.findNode ds))
          let packets := oy.filterMap fun
            | .response _ _ _ (.nodes t rs) => some (t, rs)
            | _ => none
          let st1 := setInst st { iy with svc := sy }
          -- … and its packets are fed back one by one
          runInputs st1 x (packets.map fun p => Svc.Input.response req.peer req.addr req.id (.nodes p.1 p.2))
            sfx (some s!"pk={packets.length}")
        | _ => (st, "noop")
      | none => (st, "noop")
    | _, _ => (st, "noop")
  | ["stable", x] =>
    match getInst st x with
    | some i => (st, digest true i.svc.table)
    | none => (st, "noop")
  | ["slocal", x] =>
    match getInst st x with
    | some i =>
      let r := i.svc.localRec
      let sh (v6 : Bool) (o : Option Nat) := match o with | some s => showAddr { v6 := v6, sock := s } | none => "-"
      (st, s!"{sKeyHex r.id}:{r.seq}:{sh false r.udp4}:{sh true r.udp6}")
    | none => (st, "noop")
  | ["sbans"] => (st, if st.bans.isEmpty then "-" else " ".intercalate st.bans)
  | _ => (st, "bad-op")

end SvcD

abbrev ServiceSt := SvcD.ServiceSt
def serviceStep : ServiceSt → List String → ServiceSt × String := SvcD.serviceStep

end Discv5.Driver

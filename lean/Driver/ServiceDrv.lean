/- Driver for the service engine (ops whose name starts with `s`). -/
import Driver.Common
namespace Discv5.Driver

structure ServiceSt where
  dummy : Unit := ()

/-- One op of the service engine: full token list (op name first) → new state and reply line. -/
def serviceStep (st : ServiceSt) (toks : List String) : ServiceSt × String :=
  match toks with
  | _ => (st, "bad-op")

end Discv5.Driver

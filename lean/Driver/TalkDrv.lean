/- Driver for the talk engine (ops whose name starts with `t`): life cycle of `TalkRequest`
objects (`Model/Service.lean`, section TALK) on top of the service model. -/
import Driver.Common
import Driver.ServiceDrv
namespace Discv5.Driver
namespace TalkD
open Discv5.Svc SvcD

structure TalkSt where
  /-- request objects held by the application (`none` once consumed) -/
  reqs : List (Option TalkReq) := []
  /-- the service runs and the handler side of the channel is alive -/
  running : Bool := false
  started : Bool := false

def showResps (outs : List Out) : List String :=
  outs.filterMap fun
    | .response p a r b => some s!"resp:{id8 p}@{showAddr a}:{hexOrDash r}:{showRespBody b}"
    | _ => none

def line (items : List String) : String := if items.isEmpty then "-" else " ".intercalate items

def talkStep (st : TalkSt) (toks : List String) : TalkSt × String :=
  match toks with
  | ["tnop"] => (st, "noop")
  | ["tnew"] => ({ reqs := [], running := true, started := true }, "ok")
  | ["tdeliver", peer, addr, rid, _proto, _payload] =>
    if !st.started then (st, "noop") else
    if !st.running then (st, "-") else
    -- `handle_rpc_request`: the request becomes an object handed to the application
    let t : TalkReq := { rid := bytesOf rid, peer := sKey peer, addr := parseAddr addr }
    let st' := { st with reqs := st.reqs ++ [some t] }
    (st', s!"talkreq:#{st'.reqs.length}:{hexOrDash t.rid}")
  | ["trespond", i, payload] =>
    match st.reqs[nat! i - 1]? with
    | some (some t) =>
      let (r, outs) := t.life st.running (.respond (bytesOf payload))
      let rs := match r with
        | some .ok => "ok" | some .channelClosed => "err" | some .panic => "panic" | none => "-"
      ({ st with reqs := st.reqs.set (nat! i - 1) none }, s!"res={rs} {line (showResps outs)}")
    | _ => (st, "noop")
  | ["tdrop", i] =>
    match st.reqs[nat! i - 1]? with
    | some (some t) =>
      let (_, outs) := t.life st.running .dropOnly
      ({ st with reqs := st.reqs.set (nat! i - 1) none }, line (showResps outs))
    | _ => (st, "noop")
  | ["tshutdown"] => ({ st with running := false }, "ok")
  | _ => (st, "bad-op")

end TalkD

abbrev TalkSt := TalkD.TalkSt
def talkStep : TalkSt → List String → TalkSt × String := TalkD.talkStep

end Discv5.Driver

/- Driver for the talk engine (ops whose name starts with `t`). -/
import Driver.Common
namespace Discv5.Driver

structure TalkSt where
  dummy : Unit := ()

/-- One op of the talk engine: full token list (op name first) → new state and reply line. -/
def talkStep (st : TalkSt) (toks : List String) : TalkSt × String :=
  match toks with
  | _ => (st, "bad-op")

end Discv5.Driver

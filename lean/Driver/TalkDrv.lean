/- Driver for the talk engine (ops whose name starts with `t`): life cycle of `TalkRequest`
objects (`Model/Service.lean`, section TALK) on top of the service model. -/
import Driver.Common
import Driver.ServiceDrv
import Discv5Model.Model.Talk
namespace Discv5.Driver
namespace TalkD
open Discv5.Svc SvcD

structure TalkSt where
  /-- the world of request objects (`Model/Talk.lean`) -/
  w : Discv5.Talk.World := {}
  started : Bool := false

def showResps (outs : List Out) : List String :=
  outs.filterMap fun
    | .response p a r b => some s!"resp:{id8 p}@{showAddr a}:{hexOrDash r}:{showRespBody b}"
    | _ => none

def line (items : List String) : String := if items.isEmpty then "-" else " ".intercalate items

def showRes : Option TalkResult → String
  | some .ok => "ok" | some .channelClosed => "err" | some .panic => "panic" | none => "-"

open Discv5.Talk in
def talkStep (st : TalkSt) (toks : List String) : TalkSt × String :=
  match toks with
  | ["tnop"] => (st, "noop")
  | ["tnew"] => ({ w := {}, started := true }, "ok")
  | ["tdeliver", peer, addr, rid, _proto, _payload] =>
    if !st.started then (st, "noop") else
    -- `handle_rpc_request`: the request becomes an object handed to the application
    let (w', _, _) := st.w.step (.deliver (bytesOf rid) (sKey peer) (parseAddr addr))
    if w'.reqs.length == st.w.reqs.length then ({ st with w := w' }, "-") else
    ({ st with w := w' }, s!"talkreq:#{w'.reqs.length}:{hexOrDash (bytesOf rid)}")
  -- the service could not hand the object to the application (event stream full): it is dropped at once
  | ["tdeliverfull", peer, addr, rid] =>
    if !st.started then (st, "noop") else
    let (w1, _, _) := st.w.step (.deliver (bytesOf rid) (sKey peer) (parseAddr addr))
    if w1.reqs.length == st.w.reqs.length then ({ st with w := w1 }, "-") else
    let (w2, _, outs) := w1.step (.use (w1.reqs.length - 1) .dropOnly)
    ({ st with w := w2 }, line (showResps (outs.map (·.2))))
  | ["trespond", i, payload] =>
    match st.w.reqs[nat! i - 1]? with
    | some (some _) =>
      let (w', r, outs) := st.w.step (.use (nat! i - 1) (.respond (bytesOf payload)))
      ({ st with w := w' }, s!"res={showRes r} {line (showResps (outs.map (·.2)))}")
    | _ => (st, "noop")
  | ["tdrop", i] =>
    match st.w.reqs[nat! i - 1]? with
    | some (some _) =>
      let (w', _, outs) := st.w.step (.use (nat! i - 1) .dropOnly)
      ({ st with w := w' }, line (showResps (outs.map (·.2))))
    | _ => (st, "noop")
  | ["tsleep"] => (st, "ok")  -- time passing changes nothing: a request is answered whenever it is dropped
  | ["tshutdown"] =>
    let (w', _, _) := st.w.step .shutdown
    ({ st with w := w' }, "ok")
  | _ => (st, "bad-op")

end TalkD

abbrev TalkSt := TalkD.TalkSt
def talkStep : TalkSt → List String → TalkSt × String := TalkD.talkStep

end Discv5.Driver

/- Driver for the ipvote engine (ops whose name starts with `v`). -/
import Driver.Common
namespace Discv5.Driver

structure IpvoteSt where
  dummy : Unit := ()

/-- One op of the ipvote engine: full token list (op name first) → new state and reply line. -/
def ipvoteStep (st : IpvoteSt) (toks : List String) : IpvoteSt × String :=
  match toks with
  | _ => (st, "bad-op")

end Discv5.Driver

/- Driver for the ipvote engine (ops whose name starts with `v`).

Ops (one reply line each):
* `vnew MIN DUR_MS`      `IpVote::new` → `ok` | `err:panic` (minimum below 2)
* `vins VOTER F:ADDR`    `IpVote::insert` (F = 4 | 6, ADDR an opaque token) → `ok`
* `vsleep MS`            the clock advances → `ok`
* `vmaj`                 `IpVote::majority` → `4=<ADDR|none> 6=<ADDR|none>`
* `vhas`                 `IpVote::has_minimum_threshold` → `<bool> <bool>`
* `vthr N`               sweep of the mirrored threshold over 0..=N → `thr N sum=Σthr(n) wsum=Σ(n+1)·thr(n) mod 2^61-1 mismatch=none`
* `vthrcode N`           thresholds for n = 3..=N → `thrcode N t3,t4,…` (the harness derives them from
                         the behaviour of `majority()` itself)
The model iterates the maps in insertion order; `vmaj` also runs the reversed order and reports
`model-order-dependent` if the two differ (cannot happen: `majority_order_independent`). -/
import Driver.Common
import Discv5Model.Model.IpVote
namespace Discv5.Driver
open Discv5.IpVote

structure IpvoteSt where
  votes : Option (IpVote String) := none
  clock : Nat := 0

def vParseSock (s : String) : Option (Sock String) :=
  match s.splitOn ":" with
  | "4" :: rest => some (.v4 (":".intercalate rest))
  | "6" :: rest => some (.v6 (":".intercalate rest))
  | _ => none

def vShowOpt : Option String → String
  | none => "none"
  | some a => a

def vThrSweep (n : Nat) : Nat × Nat := Id.run do
  let mut sum := 0
  let mut wsum := 0
  for i in [0:n+1] do
    let t := thrF64 i
    sum := sum + t
    wsum := (wsum + (i + 1) * t) % 2305843009213693951
  return (sum, wsum)

/-- One op of the ipvote engine: full token list (op name first) → new state and reply line. -/
def ipvoteStep (st : IpvoteSt) (toks : List String) : IpvoteSt × String :=
  match toks with
  | ["vnew", m, d] =>
    match IpVote.new? (nat! m) (nat! d) with
    | none => ({ st with votes := none, clock := 0 }, "err:panic")
    | some v => ({ votes := some v, clock := 0 }, "ok")
  | ["vins", voter, sock] =>
    match st.votes, vParseSock sock with
    | some v, some s => ({ st with votes := some (v.insert st.clock (nat! voter) s) }, "ok")
    | _, _ => (st, "bad-op")
  | ["vsleep", ms] => ({ st with clock := st.clock + nat! ms }, "ok")
  | ["vmaj"] =>
    match st.votes with
    | none => (st, "bad-op")
    | some v =>
      let r := v.majority thrF64 st.clock id id
      let r' := v.majority thrF64 st.clock List.reverse List.reverse
      if r.2 != r'.2 then ({ st with votes := some r.1 }, "model-order-dependent")
      else ({ st with votes := some r.1 }, s!"4={vShowOpt r.2.1} 6={vShowOpt r.2.2}")
  | ["vhas"] =>
    match st.votes with
    | none => (st, "bad-op")
    | some v =>
      let r := v.hasMinimumThreshold st.clock
      ({ st with votes := some r.1 }, s!"{r.2.1} {r.2.2}")
  | ["vthr", n] =>
    let (s, w) := vThrSweep (nat! n)
    (st, s!"thr {nat! n} sum={s} wsum={w} mismatch=none")
  | ["vthrcode", n] =>
    let ts := (List.range (nat! n + 1)).drop 3 |>.map (fun i => toString (thrF64 i))
    (st, s!"thrcode {nat! n} {",".intercalate ts}")
  | _ => (st, "bad-op")

end Discv5.Driver

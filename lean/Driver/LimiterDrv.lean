/- Driver for the limiter engine (ops whose name starts with `l`). -/
import Driver.Common
namespace Discv5.Driver

structure LimiterSt where
  dummy : Unit := ()

/-- One op of the limiter engine: full token list (op name first) → new state and reply line. -/
def limiterStep (st : LimiterSt) (toks : List String) : LimiterSt × String :=
  match toks with
  | _ => (st, "bad-op")

end Discv5.Driver

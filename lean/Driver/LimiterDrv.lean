/- Driver for the limiter engine (ops whose name starts with `l`).

Limiter ops (a `Limiter<u64>` with explicit times):
  `lnew N PERIOD_NS`            → `ok tau=<tau> t=<t>` | `err:quota`
  `la NS KEY TOKENS`            → `ok|large|soon:<wait>` ` tat=<v|-> n=<entries>`
  `lp NS`                       → `n=<entries> <key>:<tat>,…|-`
Filter ops (`Filter` + the global permit/ban list; `NOW` is the logical clock in ns):
  `lfnew EN LIM MAXN MAXB BAN`  → `ok` | `err:quota`   (LIM = `x` | `TOT/NODE/IP`, each `x`|`N:PERIOD`)
  `lrnew …`                     → same, the filter sits behind `handle_inbound`
  `lfpi IP` `lfpn NODE` `lfbi NOW IP DUR` `lfbn NOW NODE DUR`   → snapshot
  `lfi NOW IP` / `lff NOW IP NODE`  → `pass|drop` + snapshot
  `lfp NOW` → `ok`      `lfz NOW MS` → `ok` (sleep)      `lfs NOW` → snapshot after the ban sweep
  `lrx IP PORT` / `lry IP PORT` → `ok` (expected response added / removed)
  `lrin NOW IP PORT KIND NODE`  → `dropped|unrec|inbound` + snapshot  (KIND = g|w|m)
-/
import Driver.Common
import Discv5Model.Model.Filter
namespace Discv5.Driver
open Discv5.Limiter Discv5.Filter

structure LimiterSt where
  lim : Option (Limiter Nat) := none
  keys : List Nat := []
  /-- number of keys with an entry (kept incrementally: `allows` touches the entry of its key only) -/
  cnt : Nat := 0
  filt : Option Filter.Filter := none
  pb : PermitBan := PermitBan.empty
  ips : List Nat := []
  nodes : List Nat := []
  expected : List (Nat × Nat) := []

/-- Sorted insertion without duplicates. -/
def insSorted (x : Nat) : List Nat → List Nat
  | [] => [x]
  | y :: ys => if x < y then x :: y :: ys else if x = y then y :: ys else y :: insSorted x ys

def optNat (s : String) : Option Nat := if s == "x" then none else s.toNat?

def showVerdict : Verdict → String
  | .ok => "ok"
  | .tooLarge => "large"
  | .tooSoon w => s!"soon:{w}"

def limEntries (l : Limiter Nat) (keys : List Nat) : List (Nat × Nat) :=
  keys.filterMap (fun k => (l.tat k).map (fun v => (k, v)))

/-- `N:PERIOD` | `x`. -/
def parseQuota (s : String) : Option (Option (Nat × Nat)) :=
  if s == "x" then some none
  else match fields s with
    | [n, p] => match n.toNat?, p.toNat? with
      | some n, some p => some (some (n, p))
      | _, _ => none
    | _ => none

/-- `x` (no rate limiter) | `TOT/NODE/IP`.  Outer `none` = malformed, `some none` = build error. -/
def parseLimiter (s : String) : Option (Option (Option RateLimiter)) :=
  if s == "x" then some (some none)
  else match s.splitOn "/" with
    | [a, b, c] => match parseQuota a, parseQuota b, parseQuota c with
      | some qa, some qb, some qc => some ((RateLimiter.build qa qb qc).map some)
      | _, _, _ => none
    | _ => none

def showBan (m : Nat → Option (Option Nat)) (keys : List Nat) : String :=
  let es := keys.filterMap (fun k => (m k).map (fun e => s!"{k}:{if e.isSome then "t" else "p"}"))
  if es.isEmpty then "-" else ",".intercalate es

def showSet (m : Nat → Bool) (keys : List Nat) : String :=
  let es := (keys.filter m).map toString
  if es.isEmpty then "-" else ",".intercalate es

def snapshot (st : LimiterSt) : String :=
  s!"pi={showSet st.pb.permitIps st.ips} bi={showBan st.pb.banIps st.ips} pn={showSet st.pb.permitNodes st.nodes} bn={showBan st.pb.banNodes st.nodes}"

def newFilter (st : LimiterSt) (en lim maxn maxb ban : String) : LimiterSt × String :=
  match parseLimiter lim with
  | none => (st, "bad-op")
  | some none => ({ st with filt := none, pb := PermitBan.empty }, "err:quota")
  | some (some rl) =>
    ({ st with filt := some (Filter.new (en == "1") rl (optNat maxn) (optNat maxb) (optNat ban)),
               pb := PermitBan.empty, expected := [] }, "ok")

/-- One op of the limiter engine: full token list (op name first) → new state and reply line. -/
def limiterStep (st : LimiterSt) (toks : List String) : LimiterSt × String :=
  match toks with
  | ["lnew", n, period] =>
    match (fromQuota (nat! n) (nat! period) : Option (Limiter Nat)) with
    | none => ({ st with lim := none, keys := [], cnt := 0 }, "err:quota")
    | some l => ({ st with lim := some l, keys := [], cnt := 0 }, s!"ok tau={l.tau} t={l.t}")
  | ["la", ns, key, tokens] =>
    match st.lim with
    | none => (st, "bad-op")
    | some l =>
      let key := nat! key
      let (l1, v) := l.allows (nat! ns) key (nat! tokens)
      let keys := insSorted key st.keys
      let tat := match l1.tat key with | some x => toString x | none => "-"
      let cnt := st.cnt - (if (l.tat key).isSome then 1 else 0) + (if (l1.tat key).isSome then 1 else 0)
      ({ st with lim := some l1, keys := keys, cnt := cnt },
       s!"{showVerdict v} tat={tat} n={cnt}")
  | ["lp", ns] =>
    match st.lim with
    | none => (st, "bad-op")
    | some l =>
      let l1 := l.prune (nat! ns)
      let es := limEntries l1 st.keys
      let body := if es.isEmpty then "-" else ",".intercalate (es.map fun e => s!"{e.1}:{e.2}")
      ({ st with lim := some l1, cnt := es.length }, s!"n={es.length} {body}")
  | ["lfnew", en, lim, maxn, maxb, ban] => newFilter st en lim maxn maxb ban
  | ["lrnew", en, lim, maxn, maxb, ban] => newFilter st en lim maxn maxb ban
  | ["lfpi", ip] =>
    let ip := nat! ip
    let st := { st with ips := insSorted ip st.ips,
                        pb := { st.pb with permitIps := fun k => k == ip || st.pb.permitIps k } }
    (st, snapshot st)
  | ["lfpn", node] =>
    let node := nat! node
    let st := { st with nodes := insSorted node st.nodes,
                        pb := { st.pb with permitNodes := fun k => k == node || st.pb.permitNodes k } }
    (st, snapshot st)
  | ["lfbi", now, ip, dur] =>
    let ip := nat! ip
    let st := { st with ips := insSorted ip st.ips,
                        pb := { st.pb with banIps := banInsert st.pb.banIps ip ((optNat dur).map (nat! now + ·)) } }
    (st, snapshot st)
  | ["lfbn", now, node, dur] =>
    let node := nat! node
    let st := { st with nodes := insSorted node st.nodes,
                        pb := { st.pb with banNodes := banInsert st.pb.banNodes node ((optNat dur).map (nat! now + ·)) } }
    (st, snapshot st)
  | ["lfi", now, ip] =>
    match st.filt with
    | none => (st, "bad-op")
    | some f =>
      let ip := nat! ip
      let (f1, pb1, ok) := f.initialPass st.pb (nat! now) ip
      let st := { st with filt := some f1, pb := pb1, ips := insSorted ip st.ips }
      (st, s!"{if ok then "pass" else "drop"} {snapshot st}")
  | ["lff", now, ip, node] =>
    match st.filt with
    | none => (st, "bad-op")
    | some f =>
      let ip := nat! ip
      let node := nat! node
      let (f1, pb1, ok) := f.finalPass st.pb (nat! now) ip node
      let st := { st with filt := some f1, pb := pb1, ips := insSorted ip st.ips,
                          nodes := insSorted node st.nodes }
      (st, s!"{if ok then "pass" else "drop"} {snapshot st}")
  | ["lfp", now] =>
    match st.filt with
    | none => (st, "bad-op")
    | some f => ({ st with filt := some (f.pruneLimiter (nat! now)) }, "ok")
  | ["lfz", _now, _ms] => (st, "ok")
  | ["lfs", now] =>
    let st := { st with pb := st.pb.sweep (nat! now) }
    (st, snapshot st)
  | ["lrx", ip, port] => ({ st with expected := Filter.expectAddr st.expected (nat! ip) (nat! port) }, "ok")
  | ["lry", ip, port] => ({ st with expected := Filter.releaseAddr st.expected (nat! ip) (nat! port) }, "ok")
  | ["lrin", now, ip, port, kind, node] =>
    match st.filt with
    | none => (st, "bad-op")
    | some f =>
      let ip := nat! ip
      let node := nat! node
      let d : Option Decoded := match kind with
        | "g" => some .garbage
        | "w" => some .noSrc
        | "m" => some (.src node)
        | "h" => some (.src node)   -- a handshake packet carries its sender's id as well
        | _ => none
      match d with
      | none => (st, "bad-op")
      | some d =>
        let r : Filter.Recv := { filter := f, pb := st.pb, expected := st.expected }
        let (r1, o) := r.inbound (nat! now) ip (nat! port) d
        let (f1, pb1) := (r1.filter, r1.pb)
        let st := { st with filt := some f1, pb := pb1, ips := insSorted ip st.ips,
                            nodes := if kind == "m" || kind == "h" then insSorted node st.nodes else st.nodes }
        let o := match o with | .dropped => "dropped" | .unrecognized => "unrec" | .inbound => "inbound"
        (st, s!"{o} {snapshot st}")
  | _ => (st, "bad-op")

end Discv5.Driver

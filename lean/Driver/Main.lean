/- Model driver: one op per input line, one reply line per op. -/
import Driver.PacketDrv
namespace Discv5.Driver

structure St where
  dummy : Unit := ()

def step (st : St) (line : String) : St × String :=
  match line.trimAscii.toString.splitOn " " with
  | "penc" :: args => (st, penc args)
  | "pdec" :: args => (st, pdec args)
  | _ => (st, "bad-op")

partial def loop (h : IO.FS.Stream) (out : IO.FS.Stream) (st : St) : IO Unit := do
  let line ← h.getLine
  if line.isEmpty then return ()
  let t := line.trimAscii.toString
  if t.isEmpty || t.startsWith "#" then
    -- comments / case separators are echoed so both streams stay aligned
    out.putStrLn t
    loop h out (if t.startsWith "#case" then {} else st)
  else
    let (st', o) := step st t
    out.putStrLn o
    loop h out st'

end Discv5.Driver

def main : IO Unit := do
  let out ← IO.getStdout
  Discv5.Driver.loop (← IO.getStdin) out {}
  out.flush

/- Model driver: one op per input line, one reply line per op.  The first character of the op
name selects the engine: p packet, r rpc, k kbucket, q query, l limiter/filter, v ipvote,
c lru cache, t talk, s service, h handler.  `#case` lines reset all state. -/
import Driver.PacketDrv
import Driver.RpcDrv
import Driver.KbucketDrv
import Driver.QueryDrv
import Driver.LimiterDrv
import Driver.IpvoteDrv
import Driver.LruDrv
import Driver.TalkDrv
import Driver.ServiceDrv
import Driver.HandlerDrv
namespace Discv5.Driver

structure St where
  rpc : RpcSt := {}
  kbucket : KbucketSt := {}
  query : QuerySt := {}
  limiter : LimiterSt := {}
  ipvote : IpvoteSt := {}
  lru : LruSt := {}
  talk : TalkSt := {}
  service : ServiceSt := {}
  handler : HandlerSt := {}

def step (st : St) (line : String) : St × String :=
  let toks := line.trimAscii.toString.splitOn " "
  match toks with
  | "penc" :: args => (st, penc args)
  | "pdec" :: args => (st, pdec args)
  | op :: _ =>
    match op.toList.head? with
    | 'r' => let (s, o) := rpcStep st.rpc toks; ({ st with rpc := s }, o)
    | 'k' => let (s, o) := kbucketStep st.kbucket toks; ({ st with kbucket := s }, o)
    | 'q' => let (s, o) := queryStep st.query toks; ({ st with query := s }, o)
    | 'l' => let (s, o) := limiterStep st.limiter toks; ({ st with limiter := s }, o)
    | 'v' => let (s, o) := ipvoteStep st.ipvote toks; ({ st with ipvote := s }, o)
    | 'c' => let (s, o) := lruStep st.lru toks; ({ st with lru := s }, o)
    | 't' => let (s, o) := talkStep st.talk toks; ({ st with talk := s }, o)
    | 's' => let (s, o) := serviceStep st.service toks; ({ st with service := s }, o)
    | 'h' => let (s, o) := handlerStep st.handler toks; ({ st with handler := s }, o)
    | _ => (st, "bad-op")
  | _ => (st, "bad-op")

partial def loop (h : IO.FS.Stream) (out : IO.FS.Stream) (st : St) : IO Unit := do
  let line ← h.getLine
  if line.isEmpty then return ()
  let t := line.trimAscii.toString
  if t.isEmpty || t.startsWith "#" then
    -- comments / case separators are echoed so both streams stay aligned
    out.putStrLn t
    loop h out (if t.startsWith "#case" then {} else st)
  else
    let (st', o) := step st t
    out.putStrLn o
    loop h out st'

end Discv5.Driver

def main : IO Unit := do
  let out ← IO.getStdout
  Discv5.Driver.loop (← IO.getStdin) out {}
  out.flush

/- Driver for the packet engine (ops `penc`, `pdec`). -/
import Driver.Common
import Discv5Model.Model.Packet
namespace Discv5.Driver
open Discv5.Packet

def ksOf (table : Bytes) : KS := fun _ _ i => table.getD i 0

def parseKind (s : String) : Option Kind :=
  match fields s with
  | ["m", src] => some (.message (hex! src))
  | ["w", idn, seq] => some (.whoareyou (hex! idn) (nat! seq))
  | ["h", src, sig, eph, rec] =>
      some (.handshake (hex! src) (hex! sig) (hex! eph) (if rec == "none" then none else some (hex! rec)))
  | _ => none

def showKind : Kind → String
  | .message src => s!"m:{hexOrDash src}"
  | .whoareyou idn seq => s!"w:{hexOrDash idn}:{seq}"
  | .handshake src sig eph rec =>
      let r := match rec with | none => "none" | some r => hexOrDash r
      s!"h:{hexOrDash src}:{hexOrDash sig}:{hexOrDash eph}:{r}"

/-- `penc KS PID VER DST IV NONCE KIND MSG` → `DATAGRAM AD` -/
def penc : List String → String
  | [ks, pid, ver, dst, iv, nonce, kind, msg] =>
    match parseKind kind with
    | none => "bad-op"
    | some k =>
      let p : Packet := { iv := hex! iv, nonce := hex! nonce, kind := k, message := hex! msg }
      let proto : Proto := { pid := hex! pid, ver := hex! ver }
      s!"{toHex (encode (ksOf (hex! ks)) proto (hex! dst) p)} {toHex (authenticatedData proto p)}"
  | _ => "bad-op"

/-- `pdec KS PID VER LOCAL DATA RECTAIL RECRES` where RECTAIL is the byte string the harness
handed to the real record decoder (`na` if it did not call it) and RECRES its canonical
re-encoding or `bad`. -/
def pdec : List String → String
  | [ks, pid, ver, loc, data, rectail, recres] =>
    let proto : Proto := { pid := hex! pid, ver := hex! ver }
    let recDec : Bytes → Option Bytes := fun t =>
      if rectail != "na" && t == hex! rectail then
        (if recres == "bad" then none else some (hex! recres))
      else some [0xde, 0xad]  -- oracle miss: shows up as a disagreement
    match decode (ksOf (hex! ks)) recDec proto (hex! loc) (hex! data) with
    | .ok (p, ad) =>
      s!"ok {hexOrDash p.iv} {hexOrDash p.nonce} {showKind p.kind} {hexOrDash p.message} {hexOrDash ad}"
    | .err e => s!"err:{e.toString}"
    | .panic => "panic"
  | _ => "bad-op"

end Discv5.Driver

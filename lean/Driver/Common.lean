/- Line-protocol helpers for the model driver (core Lean only). -/
import Discv5Model.Model.Bytes
namespace Discv5.Driver

def hex! (s : String) : Bytes := (ofHex s).getD []

def hexOk (s : String) : Bool := (ofHex s).isSome

def nat! (s : String) : Nat := s.toNat?.getD 0

/-- Splits `a:b:c`. -/
def fields (s : String) : List String := s.splitOn ":"

end Discv5.Driver
